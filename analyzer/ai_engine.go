package main

import (
	"fmt"
	"go/constant"
	"go/token"
	"go/types"
	"os"
	"sort"
	"strings"

	"golang.org/x/tools/go/ssa"
)

// Outcome of running a function: its results and the state at that return.
type Outcome struct {
	Rets []AV
	Env  *Env
}

// OutcomeCF is the context-free form used for recursive (SCC) functions.
type OutcomeCF struct {
	Rets []CF
	Eff  map[int]map[string]CF // pointer param index -> field path -> value at return
	key  string
}

type DerefRec struct {
	Instr   ssa.Instruction
	Fn      *ssa.Function
	What    string
	Visits  int
	Bad     int
	Witness string
	Kind    string // "nil", "nilmap", "typeassert", "nilfunc"
}

// Observer is notified before each instruction is executed in some environment.
type Observer interface {
	Visit(eng *Engine, fn *ssa.Function, in ssa.Instruction, env *Env)
}

type Engine struct {
	unroll map[*ssa.BasicBlock]bool
	p      *Prog
	eff    *Effects

	symTab  map[string]SymID
	symName []string
	objTab  map[string]ObjID
	objName []string

	shapeTab map[string][]*Shape // type string -> shapes
	shapeIdx map[string]int      // type string + "|" + key -> index

	rec     map[*ssa.Function]bool // member of a recursive SCC
	entry   map[*ssa.Function][]CF
	summ    map[*ssa.Function][]*OutcomeCF
	changed bool
	final   bool // records are kept only in the final (stable) round

	derefs    map[ssa.Instruction]*DerefRec
	visits    map[ssa.Instruction]int
	fnVisits  map[*ssa.Function]int
	observers []Observer
	notes     map[string]bool
	stack     []*ssa.Function
	combStack []combFrame
	ctx       []string
	rounds    int
	maxDisj   int
	initArr   map[*ssa.Alloc]bool     // array allocs fully initialised by constant-index stores in their block
	initMake  map[*ssa.MakeSlice]bool // make([]T,n) proven totally initialised by a following loop
	budget    int
	runs      int
	runCount  map[string]int
	obsActive bool
	retRecs   map[*ssa.Return]map[string]bool // abstract result tuples seen at each return (final round)
	globalNN  map[*ssa.Global]bool
	lastArgs  []AV
	pinned    []AV // values whose facts must survive garbage collection (standalone runs)
}

// RunStandalone analyses fn on the given context-free arguments using the shapes and summaries of
// the finished global analysis. Nothing is recorded; obs sees every executed instruction.
func (eng *Engine) RunStandalone(fn *ssa.Function, args []CF, obs Observer) []Outcome {
	saveObs, saveFinal := eng.observers, eng.final
	eng.observers = []Observer{obs}
	eng.obsActive = true
	eng.final = false
	defer func() { eng.observers, eng.final, eng.obsActive = saveObs, saveFinal, false }()
	env := newEnv()
	var avs []AV
	for i, p := range fn.Params {
		c := defaultCF(p.Type(), 0)
		if i < len(args) && args[i].K != KBot {
			c = args[i]
		}
		avs = append(avs, eng.fromCF(env, c, p.Type(), fmt.Sprintf("standalone:%s:%d", fn.String(), i)))
	}
	eng.ctx = []string{"standalone:" + fn.String()}
	eng.pinned = avs
	eng.lastArgs = avs
	outs := eng.runFunction(fn, env, avs)
	eng.pinned = nil
	eng.ctx = nil
	// summaries and entry states must not be disturbed by exploratory runs
	return outs
}

func (eng *Engine) dumpRunCounts() {
	type kv struct {
		k string
		v int
	}
	var l []kv
	for k, v := range eng.runCount {
		l = append(l, kv{k, v})
	}
	sort.Slice(l, func(i, j int) bool { return l[i].v > l[j].v })
	for i, x := range l {
		if i > 40 {
			break
		}
		fmt.Printf("  runs %-30s %d\n", x.k, x.v)
	}
}

var traceAI = os.Getenv("SPDXVERIF_TRACE") != ""
var checkAI = os.Getenv("SPDXVERIF_CHECK") != ""

func (eng *Engine) checkEnv(e *Env, where string) {
	if !checkAI {
		return
	}
	for sy, t := range e.tgt {
		has := false
		for k := range e.cells {
			if k.Obj == t {
				has = true
				break
			}
		}
		if !has && !eng.notes[fmt.Sprint("chk", sy, where)] {
			eng.notes[fmt.Sprint("chk", sy, where)] = true
			fmt.Printf("INCONSISTENT@%s tgt[%s]=%d without cells ctx=%s\n", where, eng.symName[sy], t, eng.ctxKey())
		}
	}
}

var traceShapes = os.Getenv("SPDXVERIF_TRACE_SHAPES") != ""

func NewEngine(p *Prog) *Engine {
	e := &Engine{p: p, eff: p.Effects(), symTab: map[string]SymID{}, objTab: map[string]ObjID{}, shapeTab: map[string][]*Shape{}, shapeIdx: map[string]int{},
		rec: map[*ssa.Function]bool{}, entry: map[*ssa.Function][]CF{}, summ: map[*ssa.Function][]*OutcomeCF{},
		notes: map[string]bool{}, runCount: map[string]int{}, retRecs: map[*ssa.Return]map[string]bool{}, globalNN: map[*ssa.Global]bool{}, maxDisj: 96, initArr: map[*ssa.Alloc]bool{}, initMake: map[*ssa.MakeSlice]bool{}}
	e.symName = append(e.symName, "")
	e.objName = append(e.objName, "")
	e.findRecursive()
	return e
}

func (eng *Engine) note(format string, a ...any) {
	eng.notes[fmt.Sprintf(format, a...)] = true
}

func (eng *Engine) internSym(key string) SymID {
	if s, ok := eng.symTab[key]; ok {
		return s
	}
	s := SymID(len(eng.symName))
	eng.symTab[key] = s
	eng.symName = append(eng.symName, key)
	return s
}

func (eng *Engine) internObj(key string) ObjID {
	if s, ok := eng.objTab[key]; ok {
		return s
	}
	s := ObjID(len(eng.objName))
	eng.objTab[key] = s
	eng.objName = append(eng.objName, key)
	return s
}

func (eng *Engine) ctxKey() string { return strings.Join(eng.ctx, ">") }

func (eng *Engine) instrKey(in ssa.Instruction) string {
	// deterministic, position-free within one run: function + block + index
	b := in.Block()
	idx := 0
	for i, x := range b.Instrs {
		if x == in {
			idx = i
		}
	}
	return fmt.Sprintf("%s|%s#%d.%d", eng.ctxKey(), in.Parent().String(), b.Index, idx)
}

// ---------------------------------------------------------------------------------------------
// recursion

func (eng *Engine) staticCallees(f *ssa.Function) []*ssa.Function {
	var out []*ssa.Function
	for _, b := range f.Blocks {
		for _, in := range b.Instrs {
			if ci, ok := in.(ssa.CallInstruction); ok {
				if c := ci.Common().StaticCallee(); c != nil && eng.p.InModule(c) {
					out = append(out, c)
				}
				for _, a := range ci.Common().Args {
					if mc, ok := a.(*ssa.MakeClosure); ok {
						out = append(out, mc.Fn.(*ssa.Function))
					}
					// a function (method expression, plain function) handed on as a value may be called by
					// the callee: count it as a possible callee, so that recursion through a parser
					// combinator is seen as recursion
					if fv, ok := a.(*ssa.Function); ok && len(fv.Blocks) > 0 {
						out = append(out, fv)
					}
				}
			}
			if mc, ok := in.(*ssa.MakeClosure); ok {
				out = append(out, mc.Fn.(*ssa.Function))
			}
		}
	}
	return out
}

func (eng *Engine) findRecursive() {
	// Tarjan over static in-module calls
	index := map[*ssa.Function]int{}
	low := map[*ssa.Function]int{}
	on := map[*ssa.Function]bool{}
	var st []*ssa.Function
	n := 0
	var strong func(f *ssa.Function)
	strong = func(f *ssa.Function) {
		index[f] = n
		low[f] = n
		n++
		st = append(st, f)
		on[f] = true
		for _, c := range eng.staticCallees(f) {
			if _, ok := index[c]; !ok {
				strong(c)
				if low[c] < low[f] {
					low[f] = low[c]
				}
			} else if on[c] && index[c] < low[f] {
				low[f] = index[c]
			}
		}
		if low[f] == index[f] {
			var comp []*ssa.Function
			for {
				g := st[len(st)-1]
				st = st[:len(st)-1]
				on[g] = false
				comp = append(comp, g)
				if g == f {
					break
				}
			}
			if len(comp) > 1 {
				for _, g := range comp {
					eng.rec[g] = true
				}
			} else {
				for _, c := range eng.staticCallees(f) {
					if c == f {
						eng.rec[f] = true
					}
				}
			}
		}
	}
	for _, pk := range eng.p.Pkgs {
		for _, f := range eng.p.AllModuleFuncs(pk) {
			if _, ok := index[f]; !ok {
				strong(f)
			}
		}
	}
}

// ---------------------------------------------------------------------------------------------
// types → kinds, zero and default values

func kindOf(t types.Type) kind {
	switch u := t.Underlying().(type) {
	case *types.Basic:
		if u.Info()&types.IsBoolean != 0 {
			return KBool
		}
		if u.Kind() == types.UnsafePointer {
			return KPtr
		}
		if u.Kind() == types.UntypedNil {
			return KPtr
		}
		return KNum
	case *types.Pointer:
		return KPtr
	case *types.Slice:
		return KSlice
	case *types.Map:
		return KMap
	case *types.Signature:
		return KFunc
	case *types.Interface:
		return KIface
	case *types.Struct:
		return KStruct
	case *types.Tuple:
		return KTuple
	case *types.Chan:
		return KMap
	}
	return KTop
}

func namedStruct(t types.Type) (*types.Named, *types.Struct) {
	n, ok := t.(*types.Named)
	if !ok {
		if a, ok := t.(*types.Alias); ok {
			return namedStruct(types.Unalias(a))
		}
		return nil, nil
	}
	s, ok := n.Underlying().(*types.Struct)
	if !ok {
		return nil, nil
	}
	return n, s
}

// structPaths lists the scalar/reference leaf paths of a struct type (nested structs flattened).
func structPaths(t types.Type, prefix string, d int, out *[]pathType) {
	s, ok := t.Underlying().(*types.Struct)
	if !ok || d > 4 {
		*out = append(*out, pathType{prefix, t})
		return
	}
	for i := 0; i < s.NumFields(); i++ {
		f := s.Field(i)
		p := prefix + "." + f.Name()
		if _, isStruct := f.Type().Underlying().(*types.Struct); isStruct {
			structPaths(f.Type(), p, d+1, out)
		} else {
			*out = append(*out, pathType{p, f.Type()})
		}
	}
}

type pathType struct {
	Path string
	Type types.Type
}

func zeroAV(t types.Type) AV {
	switch kindOf(t) {
	case KBool:
		return boolAV(triF)
	case KNum:
		b := t.Underlying().(*types.Basic)
		if b.Info()&types.IsString != 0 {
			return AV{K: KNum, Set: []string{`""`}}
		}
		return AV{K: KNum, Set: []string{"0"}}
	case KPtr, KSlice, KMap, KFunc, KIface:
		return AV{K: kindOf(t), Nil: isNil}
	case KStruct:
		var ps []pathType
		structPaths(t, "", 0, &ps)
		a := AV{K: KStruct, Flds: map[string]AV{}}
		for _, p := range ps {
			a.Flds[p.Path] = zeroAV(p.Type)
		}
		return a
	case KTuple:
		tt := t.(*types.Tuple)
		a := AV{K: KTuple}
		for i := 0; i < tt.Len(); i++ {
			a.Tup = append(a.Tup, zeroAV(tt.At(i).Type()))
		}
		return a
	}
	return top()
}

// defaultCF: an arbitrary value of type t that respects published shapes.
func defaultCF(t types.Type, d int) CF {
	switch kindOf(t) {
	case KBool:
		return CF{K: KBool, B: triU}
	case KNum:
		return CF{K: KNum}
	case KPtr:
		c := CF{K: KPtr, Nil: maybeNil}
		if pt, ok := t.Underlying().(*types.Pointer); ok && d < 3 {
			if _, s := namedStruct(pt.Elem()); s == nil {
				e := defaultCF(pt.Elem(), d+1)
				c.Elem = &e
			}
		}
		return c
	case KSlice:
		c := CF{K: KSlice, Nil: maybeNil}
		if st, ok := t.Underlying().(*types.Slice); ok && d < 3 {
			e := defaultCF(st.Elem(), d+1)
			c.Elem = &e
		}
		return c
	case KMap:
		c := CF{K: KMap, Nil: maybeNil}
		if mt, ok := t.Underlying().(*types.Map); ok && d < 3 {
			e := defaultCF(mt.Elem(), d+1)
			c.Elem = &e
		}
		return c
	case KFunc:
		return CF{K: KFunc, Nil: maybeNil}
	case KIface:
		return CF{K: KIface, Nil: maybeNil}
	case KStruct:
		var ps []pathType
		structPaths(t, "", 0, &ps)
		c := CF{K: KStruct, Flds: map[string]CF{}}
		for _, p := range ps {
			c.Flds[p.Path] = defaultCF(p.Type, d+1)
		}
		return c
	case KTuple:
		tt := t.(*types.Tuple)
		c := CF{K: KTuple}
		for i := 0; i < tt.Len(); i++ {
			c.Tup = append(c.Tup, defaultCF(tt.At(i).Type(), d+1))
		}
		return c
	}
	return CF{K: KTop}
}

// ---------------------------------------------------------------------------------------------
// cells

func (eng *Engine) readCell(env *Env, k cellKey, t types.Type) AV {
	if v, ok := env.cells[k]; ok {
		return v
	}
	oi := env.objs[k.Obj]
	if oi != nil && oi.Local && !oi.ElemCell {
		return zeroAV(t)
	}
	if oi != nil && oi.Local && oi.ElemCell {
		// the element cell of a slice or map made here into which nothing has been stored on this path (a
		// make that is not zero-filled is either of length zero or filled completely before it is read):
		// there is no element to read
		return AV{K: KBot}
	}
	// unknown content: an arbitrary value of the type
	a := eng.fromCF(env, defaultCF(t, 0), t, fmt.Sprintf("cell:%d%s", k.Obj, k.Path))
	return a
}

// readAt loads a value of type t from (obj,path); struct types yield a KStruct snapshot.
func (eng *Engine) readAt(env *Env, obj ObjID, path string, t types.Type) AV {
	if kindOf(t) == KStruct {
		var ps []pathType
		structPaths(t, "", 0, &ps)
		a := AV{K: KStruct, Flds: map[string]AV{}}
		for _, p := range ps {
			a.Flds[p.Path] = eng.readCell(env, cellKey{obj, path + p.Path}, p.Type)
		}
		return a
	}
	v := eng.readCell(env, cellKey{obj, path}, t)
	if v.K == KBool || v.K == KNum {
		k := cellKey{obj, path}
		v.Src = &k
	}
	if oi := env.objs[obj]; oi != nil && !oi.Summary && !oi.ElemCell && (v.K == KNum || v.K == KSlice) {
		v.Expr = fmt.Sprintf("c%d%s@%d", obj, path, env.ver[cellKey{obj, path}])
	} else {
		v.Expr = ""
	}
	return v
}

// readElem reads a summary element cell; ⊥ when nothing was ever stored into it.
func (eng *Engine) readElem(env *Env, obj ObjID, path string, et types.Type) AV {
	if kindOf(et) == KStruct {
		any := false
		for k := range env.cells {
			if k.Obj == obj && strings.HasPrefix(k.Path, path) {
				any = true
				break
			}
		}
		if !any {
			return AV{K: KBot}
		}
		return eng.readAt(env, obj, path, et)
	}
	if cv, ok := env.cells[cellKey{obj, path}]; ok {
		return cv
	}
	return AV{K: KBot}
}

func (eng *Engine) writeAt(env *Env, obj ObjID, path string, v AV, t types.Type) {
	oi := env.objs[obj]
	weak := oi == nil || oi.Summary || oi.ElemCell
	if oi != nil && !oi.Local && !oi.ElemCell {
		oi.Dirty = true
	}
	put := func(k cellKey, nv AV, ft types.Type) {
		nv.Src = nil
		nv.Expr = ""
		env.bump(k)
		if weak {
			old, ok := env.cells[k]
			if !ok {
				if oi != nil && oi.Local && !oi.ElemCell {
					old = zeroAV(ft)
				} else if oi != nil && oi.ElemCell {
					old = AV{K: KBot}
				} else {
					old = eng.fromCF(env, defaultCF(ft, 0), ft, fmt.Sprintf("cell:%d%s", k.Obj, k.Path))
				}
			}
			j := &joiner{eng: eng, a: env, b: env, out: env, site: fmt.Sprintf("w:%d%s", k.Obj, k.Path)}
			env.cells[k] = j.joinAV(old, nv, "w")
		} else {
			env.cells[k] = nv
		}
		// a store into a non-local (materialised) object may alias other materialised objects of the type
		if oi != nil && !oi.Local && !oi.ElemCell && oi.Type != nil {
			for id, o2 := range env.objs {
				if id != obj && !o2.Local && !o2.ElemCell && o2.Type != nil && types.Identical(o2.Type, oi.Type) {
					k2 := cellKey{id, k.Path}
					if old, ok := env.cells[k2]; ok {
						j := &joiner{eng: eng, a: env, b: env, out: env, site: fmt.Sprintf("alias:%d%s", id, k.Path)}
						env.cells[k2] = j.joinAV(old, nv, "a")
						env.bump(k2)
					}
				}
			}
		}
	}
	if v.K == KStruct {
		var ps []pathType
		structPaths(t, "", 0, &ps)
		for _, p := range ps {
			fv, ok := v.Flds[p.Path]
			if !ok {
				fv = eng.fromCF(env, defaultCF(p.Type, 0), p.Type, fmt.Sprintf("st:%d%s%s", obj, path, p.Path))
			}
			put(cellKey{obj, path + p.Path}, fv, p.Type)
		}
		return
	}
	put(cellKey{obj, path}, v, t)
}

// ---------------------------------------------------------------------------------------------
// CF <-> AV

func (eng *Engine) shapesOf(t *types.Named) []*Shape { return eng.shapeTab[t.String()] }

const maxShapes = 24

// normShapeField: inside a published shape, pointers to structs do not carry explicit shape lists
// ("any published shape of the pointee type") and plain-int fields do not carry constants; both are
// widenings that keep the shape tables finite and small.
func normShapeField(c CF, ft types.Type, d int) CF {
	switch c.K {
	case KPtr:
		c.Shapes = nil
		if c.Elem != nil && d < 3 {
			if pt, ok := ft.Underlying().(*types.Pointer); ok {
				e := normShapeField(*c.Elem, pt.Elem(), d+1)
				c.Elem = &e
			}
		}
	case KNum:
		if c.Set != nil {
			if b, ok := ft.(*types.Basic); ok && b.Info()&types.IsInteger != 0 {
				c.Set = nil
			}
		}
	case KSlice, KMap:
		if c.Elem != nil && d < 3 {
			var et types.Type
			switch u := ft.Underlying().(type) {
			case *types.Slice:
				et = u.Elem()
			case *types.Map:
				et = u.Elem()
			}
			if et != nil {
				e := normShapeField(*c.Elem, et, d+1)
				c.Elem = &e
			}
		}
	case KStruct:
		n := map[string]CF{}
		for k, v := range c.Flds {
			n[k] = normShapeField(v, pathTypeOf(ft, k), d+1)
		}
		c.Flds = n
	}
	return c
}

func (eng *Engine) publishShape(t *types.Named, fields map[string]CF) int {
	ts := t.String()
	nf := make(map[string]CF, len(fields))
	for k, v := range fields {
		nf[k] = normShapeField(v, pathTypeOf(t, k), 0)
	}
	fields = nf
	key := shapeKey(fields)
	if i, ok := eng.shapeIdx[ts+"|"+key]; ok {
		return i
	}
	tab := eng.shapeTab[ts]
	if len(tab) >= maxShapes {
		// overflow shape: joined
		last := tab[len(tab)-1]
		merged := map[string]CF{}
		for k, v := range last.Fields {
			if w, ok := fields[k]; ok {
				merged[k] = joinCF(v, w)
			} else {
				merged[k] = v
			}
		}
		nk := shapeKey(merged)
		if nk != last.key {
			last.Fields = merged
			last.key = nk
			eng.changed = true
		}
		return len(tab) - 1
	}
	if traceShapes {
		var st []string
		for _, f := range eng.stack {
			st = append(st, f.Name())
		}
		fmt.Printf("publish %s: %s\n   at %s ctx=%s\n", t.Obj().Name(), key, strings.Join(st, ">"), eng.ctxKey())
	}
	sh := &Shape{Type: t, Fields: fields, key: key}
	eng.shapeTab[ts] = append(tab, sh)
	eng.shapeIdx[ts+"|"+key] = len(tab)
	eng.changed = true
	return len(tab)
}

// objShape abstracts the current fields of a struct object.
func (eng *Engine) objShape(env *Env, obj ObjID, path string, t *types.Named, d int) map[string]CF {
	var ps []pathType
	structPaths(t, "", 0, &ps)
	f := map[string]CF{}
	for _, p := range ps {
		v := eng.readCell(env, cellKey{obj, path + p.Path}, p.Type)
		f[p.Path] = eng.toCF(env, v, p.Type, d+1)
	}
	return f
}

func (eng *Engine) toCF(env *Env, a AV, t types.Type, d int) CF {
	if d > 5 {
		return defaultCF(t, 2)
	}
	switch a.K {
	case KBot:
		return CF{K: KBot}
	case KTop:
		return defaultCF(t, 1)
	case KBool:
		return CF{K: KBool, B: a.B}
	case KNum:
		return CF{K: KNum, Set: a.Set}
	case KPtr:
		c := CF{K: KPtr, Nil: env.nilnessOf(a)}
		pt, ok := t.Underlying().(*types.Pointer)
		if !ok {
			return c
		}
		if n, _ := namedStruct(pt.Elem()); n != nil {
			obj, path := a.Obj, a.Path
			if obj == 0 && a.Sym != 0 {
				if tg, ok := env.tgt[a.Sym]; ok {
					obj, path = tg, ""
				}
			}
			clean := false
			if obj != 0 && a.Obj == 0 {
				if oi := env.objs[obj]; oi != nil && !oi.Dirty && !oi.Local {
					clean = true // an unmodified materialised object is still one of its published shapes
				}
			}
			if obj != 0 && !clean {
				if oi := env.objs[obj]; oi != nil {
					oi.Pub = true
				}
				c.Shapes = []int{eng.publishShape(n, eng.objShape(env, obj, path, n, d))}
			} else if a.Sym != 0 {
				if s, ok := env.shapes[a.Sym]; ok {
					c.Shapes = s
				}
			}
			if c.Nil == isNil {
				c.Shapes = nil
			}
			return c
		}
		if a.Obj != 0 {
			e := eng.toCF(env, eng.readAt(env, a.Obj, a.Path, pt.Elem()), pt.Elem(), d+1)
			c.Elem = &e
		} else {
			e := defaultCF(pt.Elem(), 2)
			c.Elem = &e
		}
		return c
	case KSlice, KMap:
		c := CF{K: a.K, Nil: env.nilnessOf(a)}
		var et types.Type
		switch u := t.Underlying().(type) {
		case *types.Slice:
			et = u.Elem()
		case *types.Map:
			et = u.Elem()
		}
		if et != nil {
			if a.Obj != 0 {
				cv := eng.readElem(env, a.Obj, a.Path, et)
				e := eng.toCF(env, cv, et, d+1)
				c.Elem = &e
			} else if c.Nil == isNil {
				e := CF{K: KBot}
				c.Elem = &e
			} else {
				e := defaultCF(et, 2)
				c.Elem = &e
			}
		}
		return c
	case KIface, KFunc:
		return CF{K: a.K, Nil: env.nilnessOf(a)}
	case KTuple:
		c := CF{K: KTuple}
		tt, _ := t.(*types.Tuple)
		for i, x := range a.Tup {
			var et types.Type = types.Typ[types.Invalid]
			if tt != nil && i < tt.Len() {
				et = tt.At(i).Type()
			}
			c.Tup = append(c.Tup, eng.toCF(env, x, et, d+1))
		}
		return c
	case KStruct:
		c := CF{K: KStruct, Flds: map[string]CF{}}
		var ps []pathType
		structPaths(t, "", 0, &ps)
		for _, p := range ps {
			if v, ok := a.Flds[p.Path]; ok {
				c.Flds[p.Path] = eng.toCF(env, v, p.Type, d+1)
			} else {
				c.Flds[p.Path] = defaultCF(p.Type, 2)
			}
		}
		return c
	}
	return CF{K: KTop}
}

// fromCF imports a context-free value under a deterministic symbol name.
func (eng *Engine) fromCF(env *Env, c CF, t types.Type, key string) AV {
	switch c.K {
	case KBot:
		return AV{K: KBot}
	case KTop:
		if k := kindOf(t); k != KTop && k != KTuple {
			return eng.fromCF(env, defaultCF(t, 1), t, key)
		}
		return top()
	case KBool:
		return boolAV(c.B)
	case KNum:
		if c.Set == nil {
			if bt, ok := t.Underlying().(*types.Basic); ok && bt.Info()&types.IsInteger != 0 {
				// an unknown integer gets a symbolic base so that x, x+1, x-1 stay related
				return AV{K: KNum, Base: eng.internSym(key + "#int")}
			}
		}
		return AV{K: KNum, Set: c.Set}
	case KPtr:
		s := eng.internSym(key)
		eng.redefineSym(env, s, nil)
		a := AV{K: KPtr, Sym: s}
		env.nilOf[s] = c.Nil
		if c.Shapes != nil {
			env.shapes[s] = c.Shapes
		}
		if c.Elem != nil && c.Nil != isNil {
			if pt, ok := t.Underlying().(*types.Pointer); ok {
				if n, _ := namedStruct(pt.Elem()); n == nil {
					oid := eng.internObj(key + "*")
					env.objs[oid] = &objInfo{Type: pt.Elem(), Desc: "pointee of " + key}
					env.dropObj(oid)
					v := eng.fromCF(env, *c.Elem, pt.Elem(), key+"*")
					eng.writeAtInit(env, oid, "", v, pt.Elem())
					env.tgt[s] = oid
				}
			}
		}
		return a
	case KSlice, KMap:
		s := eng.internSym(key)
		eng.redefineSym(env, s, nil)
		a := AV{K: c.K, Sym: s}
		env.nilOf[s] = c.Nil
		var et types.Type
		switch u := t.Underlying().(type) {
		case *types.Slice:
			et = u.Elem()
		case *types.Map:
			et = u.Elem()
		}
		if c.Elem != nil && et != nil && c.Nil != isNil {
			oid := eng.internObj(key + "[]")
			env.objs[oid] = &objInfo{Type: et, Summary: true, ElemCell: true, Desc: "elements of " + key}
			env.dropObj(oid)
			a.Obj, a.Path = oid, "[]"
			ev := eng.fromCF(env, *c.Elem, et, key+"[]")
			if ev.K == KStruct {
				eng.writeAtInit(env, oid, "[]", ev, et)
			} else {
				env.cells[cellKey{oid, "[]"}] = ev
			}
			// the symbols inside an element cell stand for many elements
			eng.markSummary(env, ev)
		}
		return a
	case KIface, KFunc:
		s := eng.internSym(key)
		eng.redefineSym(env, s, nil)
		env.nilOf[s] = c.Nil
		return AV{K: c.K, Sym: s}
	case KTuple:
		a := AV{K: KTuple}
		tt, _ := t.(*types.Tuple)
		for i, x := range c.Tup {
			var et types.Type = types.Typ[types.Invalid]
			if tt != nil && i < tt.Len() {
				et = tt.At(i).Type()
			}
			a.Tup = append(a.Tup, eng.fromCF(env, x, et, fmt.Sprintf("%s.%d", key, i)))
		}
		return a
	case KStruct:
		a := AV{K: KStruct, Flds: map[string]AV{}}
		var ps []pathType
		structPaths(t, "", 0, &ps)
		for _, p := range ps {
			fc, ok := c.Flds[p.Path]
			if !ok {
				fc = defaultCF(p.Type, 2)
			}
			a.Flds[p.Path] = eng.fromCF(env, fc, p.Type, key+p.Path)
		}
		return a
	}
	return top()
}

// writeAtInit writes without weak-update semantics (initialisation of a fresh abstract object).
func (eng *Engine) writeAtInit(env *Env, obj ObjID, path string, v AV, t types.Type) {
	if v.K == KStruct {
		for p, fv := range v.Flds {
			fv.Src = nil
			env.cells[cellKey{obj, path + p}] = fv
		}
		return
	}
	v.Src = nil
	env.cells[cellKey{obj, path}] = v
}

func (eng *Engine) markSummary(env *Env, a AV) {
	if a.Sym != 0 {
		env.sumSym[a.Sym] = true
	}
	for _, f := range a.Flds {
		eng.markSummary(env, f)
	}
	for _, f := range a.Tup {
		eng.markSummary(env, f)
	}
}

// redefineSym: the defining site of s executes again. If the old value is still referenced (stored
// in the heap or held by a live register), the old references are renamed to an aged summary symbol
// that accumulates the facts of all earlier instances (recency abstraction); s itself becomes fresh.
func (eng *Engine) redefineSym(env *Env, s SymID, except ssa.Value) {
	_, had := env.nilOf[s]
	if !had {
		if _, ok := env.shapes[s]; !ok {
			if _, ok := env.tgt[s]; !ok {
				return
			}
		}
	}
	if env.sumSym[s] {
		return
	}
	if env.refsSym(s, except) {
		old := eng.internSym(eng.symName[s] + "~old")
		env.sumSym[old] = true
		if on, ok := env.nilOf[old]; ok {
			env.nilOf[old] = joinNil(on, env.nilOf[s])
			os, hasO := env.shapes[old]
			ns, hasN := env.shapes[s]
			if hasO && hasN {
				env.shapes[old] = joinInts(os, ns)
			} else {
				delete(env.shapes, old)
			}
		} else {
			env.nilOf[old] = env.nilOf[s]
			if ns, ok := env.shapes[s]; ok {
				env.shapes[old] = ns
			}
		}
		var ren func(a AV, d int) AV
		ren = func(a AV, d int) AV {
			if d > 6 {
				return a
			}
			if a.Sym == s {
				a.Sym = old
			}
			if a.Base == s {
				a.Base, a.Off = 0, 0
			}
			if a.Tup != nil {
				nt := make([]AV, len(a.Tup))
				for i, x := range a.Tup {
					nt[i] = ren(x, d+1)
				}
				a.Tup = nt
			}
			if a.Flds != nil {
				nf := make(map[string]AV, len(a.Flds))
				for k, x := range a.Flds {
					nf[k] = ren(x, d+1)
				}
				a.Flds = nf
			}
			if a.Bind != nil {
				nb := make([]AV, len(a.Bind))
				for i, x := range a.Bind {
					nb[i] = ren(x, d+1)
				}
				a.Bind = nb
			}
			if a.In != nil {
				x := ren(*a.In, d+1)
				a.In = &x
			}
			return a
		}
		for k, c := range env.cells {
			env.cells[k] = ren(c, 0)
		}
		for v, a := range env.vals {
			if v != except {
				env.vals[v] = ren(a, 0)
			}
		}
	}
	delete(env.nilOf, s)
	delete(env.shapes, s)
	if t, ok := env.tgt[s]; ok {
		env.dropObj(t)
		delete(env.objs, t)
		delete(env.tgt, s)
	}
}

// materialise makes the target object of a pointer-to-struct symbol explicit, one environment per
// admissible shape. The pointer must be non-nil in env.
func (eng *Engine) materialise(env *Env, a AV, n *types.Named) []*Env {
	if a.Sym == 0 {
		// anonymous unknown pointer: give it a throw-away object with default fields
		return []*Env{env}
	}
	if _, ok := env.tgt[a.Sym]; ok {
		return []*Env{env}
	}
	all := eng.shapesOf(n)
	var idxs []int
	if s, ok := env.shapes[a.Sym]; ok {
		idxs = s
	} else {
		for i := range all {
			idxs = append(idxs, i)
		}
	}
	var out []*Env
	objKey := fmt.Sprintf("tgt:%s", eng.symName[a.Sym])
	oid := eng.internObj(objKey)
	summary := env.sumSym[a.Sym]
	for _, i := range idxs {
		if i >= len(all) {
			continue
		}
		e2 := env
		if len(idxs) > 1 {
			e2 = env.clone()
		}
		e2.dropObj(oid)
		e2.objs[oid] = &objInfo{Type: n, Summary: false, Desc: "target of " + eng.symName[a.Sym], FromSym: a.Sym, Pub: true}
		_ = summary
		for p, fc := range all[i].Fields {
			ft := pathTypeOf(n, p)
			v := eng.fromCF(e2, fc, ft, objKey+p)
			eng.writeAtInit(e2, oid, p, v, ft)
		}
		e2.tgt[a.Sym] = oid
		e2.shapes[a.Sym] = []int{i}
		out = append(out, e2)
	}
	if len(idxs) == 0 || len(out) == 0 {
		eng.note("no published shape for %s yet: path through a dereference of such a pointer is not explored in this round", n)
	}
	return out
}

func pathTypeOf(t types.Type, path string) types.Type {
	cur := t
	for _, name := range strings.Split(strings.TrimPrefix(path, "."), ".") {
		if name == "" {
			continue
		}
		s, ok := cur.Underlying().(*types.Struct)
		if !ok {
			return types.Typ[types.Invalid]
		}
		found := false
		for i := 0; i < s.NumFields(); i++ {
			if s.Field(i).Name() == name {
				cur = s.Field(i).Type()
				found = true
				break
			}
		}
		if !found {
			return types.Typ[types.Invalid]
		}
	}
	return cur
}

// ---------------------------------------------------------------------------------------------
// value of an SSA operand

func (eng *Engine) val(env *Env, v ssa.Value) AV {
	switch v := v.(type) {
	case *ssa.Const:
		if v.Value == nil {
			return zeroAV(v.Type())
		}
		return constAV(v.Value)
	case *ssa.Function:
		return AV{K: KFunc, Nil: nonNil, Fn: v}
	case *ssa.Global:
		oid := eng.internObj("global:" + v.String())
		if _, ok := env.objs[oid]; !ok {
			et := v.Type().Underlying().(*types.Pointer).Elem()
			env.objs[oid] = &objInfo{Type: et, Summary: true, Desc: "global " + v.Name()}
			// a package-level variable that is only written by its initialiser with a value known to be
			// non-nil (MustCompile, a composite literal, errors.New, …) is non-nil whenever the API runs
			if eng.globalNonNil(v) {
				switch kindOf(et) {
				case KPtr, KSlice, KMap, KIface, KFunc:
					env.cells[cellKey{oid, ""}] = AV{K: kindOf(et), Nil: nonNil}
				}
			}
		}
		return AV{K: KPtr, Obj: oid}
	case *ssa.Builtin:
		return AV{K: KFunc, Nil: nonNil}
	}
	if a, ok := env.vals[v]; ok {
		return a
	}
	eng.note("register %s of %s read before definition on some path; treated as unknown", v.Name(), v.Parent())
	return eng.fromCF(env, defaultCF(v.Type(), 0), v.Type(), "undef:"+v.Parent().String()+":"+v.Name())
}

// ---------------------------------------------------------------------------------------------
// running a function

type edgeEnv struct {
	blk *ssa.BasicBlock
	env *Env
}

func (eng *Engine) pushCtx(tag string) { eng.ctx = append(eng.ctx, tag) }
func (eng *Engine) popCtx()            { eng.ctx = eng.ctx[:len(eng.ctx)-1] }

// unrollable: a range loop with a small constant trip count over a local table of functions. Its
// iterations are kept apart (the range index stays a constant in each state), so that each iteration
// calls exactly the function of its slot instead of "one of them".
func (eng *Engine) unrollable(h *ssa.BasicBlock) bool {
	if v, ok := eng.unroll[h]; ok {
		return v
	}
	res := false
	if ifi, ok := h.Instrs[len(h.Instrs)-1].(*ssa.If); ok {
		if cmp, ok := ifi.Cond.(*ssa.BinOp); ok && cmp.Op == token.LSS {
			if k, ok := cmp.Y.(*ssa.Const); ok && k.Value != nil && k.Int64() > 0 && k.Int64() <= 8 {
				for _, lb := range loopBody(h) {
					for _, in := range lb.Instrs {
						if ix, ok := in.(*ssa.Index); ok && ix.Index == cmp.X && len(funcTableOf(ix.X)) == int(k.Int64()) {
							res = true
						}
					}
				}
			}
			// the same over the full slice of an array literal: the bound is len(slice) = the array's length
			if ln, ok := cmp.Y.(*ssa.Call); ok {
				if bi, ok := ln.Call.Value.(*ssa.Builtin); ok && bi.Name() == "len" {
					if sl, ok := ln.Call.Args[0].(*ssa.Slice); ok {
						if n := len(funcTableOf(sl)); n > 0 && n <= 8 {
							for _, lb := range loopBody(h) {
								for _, in := range lb.Instrs {
									if tbl, idx, _, ok := tableElem(in); ok && tbl == ssa.Value(sl) && idx == cmp.X {
										res = true
									}
								}
							}
						}
					}
				}
			}
		}
	}
	if eng.unroll == nil {
		eng.unroll = map[*ssa.BasicBlock]bool{}
	}
	eng.unroll[h] = res
	return res
}

func isLoopHeader(b *ssa.BasicBlock) bool {
	for _, p := range b.Preds {
		if b.Dominates(p) {
			return true
		}
	}
	return false
}

func fnValues(fn *ssa.Function) []ssa.Value {
	var out []ssa.Value
	for _, p := range fn.Params {
		out = append(out, p)
	}
	for _, p := range fn.FreeVars {
		out = append(out, p)
	}
	for _, b := range fn.Blocks {
		for _, in := range b.Instrs {
			if v, ok := in.(ssa.Value); ok {
				out = append(out, v)
			}
		}
	}
	return out
}

// liveness: registers live on entry to each block (standard backward dataflow over SSA registers;
// phi operands are live out of the corresponding predecessor).
type liveInfo struct {
	in [][]ssa.Value
}

var liveCache = map[*ssa.Function]*liveInfo{}

func liveness(fn *ssa.Function) *liveInfo {
	if li, ok := liveCache[fn]; ok {
		return li
	}
	n := len(fn.Blocks)
	in := make([]map[ssa.Value]bool, n)
	out := make([]map[ssa.Value]bool, n)
	for i := range in {
		in[i] = map[ssa.Value]bool{}
		out[i] = map[ssa.Value]bool{}
	}
	isReg := func(v ssa.Value) bool {
		switch v.(type) {
		case *ssa.Const, *ssa.Function, *ssa.Global, *ssa.Builtin:
			return false
		}
		return v != nil
	}
	changed := true
	for changed {
		changed = false
		for bi := n - 1; bi >= 0; bi-- {
			b := fn.Blocks[bi]
			o := out[bi]
			for _, s := range b.Succs {
				for v := range in[s.Index] {
					// phis of s are defined in s, not live-in from here
					if phi, ok := v.(*ssa.Phi); ok && phi.Block() == s {
						continue
					}
					if !o[v] {
						o[v] = true
						changed = true
					}
				}
				// phi operands for this edge
				for pi, p := range s.Preds {
					if p != b {
						continue
					}
					for _, sin := range s.Instrs {
						phi, ok := sin.(*ssa.Phi)
						if !ok {
							break
						}
						if e := phi.Edges[pi]; isReg(e) && !o[e] {
							o[e] = true
							changed = true
						}
					}
				}
			}
			live := map[ssa.Value]bool{}
			for v := range o {
				live[v] = true
			}
			for ii := len(b.Instrs) - 1; ii >= 0; ii-- {
				ins := b.Instrs[ii]
				if v, ok := ins.(ssa.Value); ok {
					if _, isPhi := ins.(*ssa.Phi); !isPhi {
						delete(live, v)
					}
				}
				if _, isPhi := ins.(*ssa.Phi); isPhi {
					continue
				}
				for _, op := range ins.Operands(nil) {
					if *op != nil && isReg(*op) {
						live[*op] = true
					}
				}
			}
			// phis are live-in in the sense that the state at block entry (after the edge) holds them
			for v := range live {
				if !in[bi][v] {
					in[bi][v] = true
					changed = true
				}
			}
		}
	}
	li := &liveInfo{in: make([][]ssa.Value, n)}
	for i := range in {
		for v := range in[i] {
			li.in[i] = append(li.in[i], v)
		}
		sort.Slice(li.in[i], func(a, b int) bool { return li.in[i][a].Name() < li.in[i][b].Name() })
	}
	liveCache[fn] = li
	return li
}

func liveAt(fn *ssa.Function, b *ssa.BasicBlock) []ssa.Value {
	return liveness(fn).in[b.Index]
}

func (eng *Engine) runFunction(fn *ssa.Function, env *Env, args []AV) []Outcome {
	if len(fn.Blocks) == 0 {
		eng.note("function %s has no body", fn)
		return nil
	}
	if eng.final {
		eng.fnVisits[fn]++
	}
	eng.runs++
	eng.runCount[fn.Name()]++
	if traceAI {
		fmt.Printf("%*srun %s (run #%d, final=%v)\n", len(eng.stack)*2, "", fn.Name(), eng.runs, eng.final)
	}
	if eng.runs > 400000 {
		eng.dumpRunCounts()
		panic("abstract interpreter: run budget exhausted (path explosion)")
	}
	eng.stack = append(eng.stack, fn)
	defer func() { eng.stack = eng.stack[:len(eng.stack)-1] }()
	eng.budget--
	for i, p := range fn.Params {
		if i < len(args) {
			env.vals[p] = args[i]
		}
	}
	allVals := func(e *Env, b *ssa.BasicBlock) string { return e.key(liveAt(fn, b)) }

	type bstate struct {
		joined *Env // loop headers / overflowed blocks
		key    string
		seen   map[string]bool
		count  int
		forced bool
	}
	st := make([]*bstate, len(fn.Blocks))
	for i := range st {
		st[i] = &bstate{seen: map[string]bool{}}
	}
	var outs []Outcome
	var work []edgeEnv
	own := map[ssa.Value]bool{}
	for _, v := range fnValues(fn) {
		own[v] = true
	}
	deliver := func(b *ssa.BasicBlock, e *Env) {
		eng.checkEnv(e, "deliver-in:"+fn.Name())
		s := st[b.Index]
		// drop this function's registers that are dead on entry to b
		lv := map[ssa.Value]bool{}
		for _, v := range liveAt(fn, b) {
			lv[v] = true
		}
		for v := range e.vals {
			if own[v] && !lv[v] {
				delete(e.vals, v)
			}
		}
		e.gc(eng.pinned)
		eng.checkEnv(e, "after-gc:"+fn.Name())
		if (isLoopHeader(b) && !eng.unrollable(b)) || s.forced {
			if s.joined == nil {
				s.joined = e
				s.key = allVals(e, b)
				work = append(work, edgeEnv{b, e.clone()})
				return
			}
			j := eng.joinEnvsKeep(s.joined, e, fmt.Sprintf("%s|%s#%d", eng.ctxKey(), fn.String(), b.Index), fn)
			eng.checkEnv(j, "header-join:"+fn.Name())
			k := allVals(j, b)
			if k != s.key {
				s.joined = j
				s.key = k
				s.count++
				if s.count > 40 {
					eng.note("loop at %s#%d did not stabilise in 40 iterations; widened", fn, b.Index)
					return
				}
				work = append(work, edgeEnv{b, j.clone()})
			}
			return
		}
		k := allVals(e, b)
		if s.seen[k] {
			return
		}
		s.seen[k] = true
		s.count++
		if s.count > eng.maxDisj {
			// too many disjuncts: from now on this block merges
			s.forced = true
			s.joined = e
			s.key = k
			eng.note("more than %d disjuncts at %s#%d; merging", eng.maxDisj, fn, b.Index)
		}
		work = append(work, edgeEnv{b, e})
	}
	deliver(fn.Blocks[0], env)
	steps := 0
	for len(work) > 0 {
		steps++
		if steps > 20000 {
			eng.note("step budget exhausted in %s", fn)
			break
		}
		w := work[len(work)-1]
		work = work[:len(work)-1]
		b := w.blk
		states := []*Env{w.env}
		for _, in := range b.Instrs {
			if _, ok := in.(*ssa.Phi); ok {
				continue
			}
			if len(states) == 0 {
				break
			}
			switch t := in.(type) {
			case *ssa.If:
				for _, e := range states {
					for _, se := range eng.branch(t, e) {
						eng.flow(b, se.blk, se.env, deliver)
					}
				}
				states = nil
			case *ssa.Jump:
				for _, e := range states {
					eng.flow(b, b.Succs[0], e, deliver)
				}
				states = nil
			case *ssa.Return:
				// a returned comparison is decided per outcome (see flow)
				for _, r := range t.Results {
					if _, isCmp := r.(*ssa.BinOp); !isCmp {
						continue
					}
					var split []*Env
					for _, e := range states {
						c := eng.val(e, r)
						if c.K != KBool || c.B != triU {
							split = append(split, e)
							continue
						}
						et := e.clone()
						if eng.refine(et, r, true) {
							et.vals[r] = boolAV(triT)
							recordPure(et, c, true)
							split = append(split, et)
						}
						if eng.refine(e, r, false) {
							e.vals[r] = boolAV(triF)
							recordPure(e, c, false)
							split = append(split, e)
						}
					}
					states = split
				}
				for _, e := range states {
					eng.observe(fn, in, e)
					var rets []AV
					for _, r := range t.Results {
						rets = append(rets, eng.val(e, r))
					}
					if eng.final {
						var parts []string
						for _, a := range rets {
							switch a.K {
							case KBool:
								parts = append(parts, "bool:"+a.B.String())
							case KPtr, KIface, KSlice, KMap, KFunc:
								parts = append(parts, e.nilnessOf(a).String())
							case KNum:
								if s, ok := a.single(); ok {
									parts = append(parts, "const:"+s)
								} else {
									parts = append(parts, "value")
								}
							case KStruct:
								// a struct all of whose fields hold their zero value is the zero struct
								zero := len(a.Flds) > 0
								for _, fv := range a.Flds {
									switch fv.K {
									case KBool:
										zero = zero && fv.B == triF
									case KNum:
										sv, ok := fv.single()
										zero = zero && ok && (sv == "0" || sv == `""`)
									case KPtr, KIface, KSlice, KMap, KFunc:
										zero = zero && e.nilnessOf(fv) == isNil
									default:
										zero = false
									}
								}
								if zero {
									parts = append(parts, "zero-struct")
								} else {
									parts = append(parts, "value")
								}
							default:
								parts = append(parts, "value")
							}
						}
						if eng.retRecs[t] == nil {
							eng.retRecs[t] = map[string]bool{}
						}
						eng.retRecs[t][strings.Join(parts, " | ")] = true
					}
					outs = append(outs, Outcome{Rets: rets, Env: e})
				}
				states = nil
			case *ssa.Panic:
				for _, e := range states {
					eng.observe(fn, in, e)
				}
				states = nil
			default:
				var next []*Env
				for _, e := range states {
					eng.observe(fn, in, e)
					next = append(next, eng.exec(fn, in, e)...)
				}
				if checkAI {
					for _, e := range next {
						for sy, t := range e.tgt {
							has := false
							for k := range e.cells {
								if k.Obj == t {
									has = true
									break
								}
							}
							if !has && !eng.notes[fmt.Sprint("chk", sy)] {
								eng.notes[fmt.Sprint("chk", sy)] = true
								fmt.Printf("INCONSISTENT tgt[%s]=%d without cells after %s in %s (%s) ctx=%s\n", eng.symName[sy], t, in.String(), fn.Name(), eng.p.pos(in.Pos()), eng.ctxKey())
							}
						}
					}
				}
				if _, isCall := in.(*ssa.Call); isCall && len(next) > 1 {
					seenK := map[string]bool{}
					var ded []*Env
					fv := fnValues(fn)
					for _, e := range next {
						k := e.key(fv)
						if !seenK[k] {
							seenK[k] = true
							ded = append(ded, e)
						}
					}
					next = ded
				}
				if len(next) > eng.maxDisj {
					j := next[0]
					for _, e := range next[1:] {
						j = eng.joinEnvsKeep(j, e, eng.instrKey(in)+":cap", fn)
					}
					next = []*Env{j}
					eng.note("disjunct cap hit inside %s", fn)
				}
				states = next
			}
		}
	}
	return outs
}

// joinEnvsKeep joins on all registers present in either side.
func (eng *Engine) joinEnvsKeep(a, b *Env, site string, fn *ssa.Function) *Env {
	seen := map[ssa.Value]bool{}
	var live []ssa.Value
	for v := range a.vals {
		if !seen[v] {
			seen[v] = true
			live = append(live, v)
		}
	}
	for v := range b.vals {
		if !seen[v] {
			seen[v] = true
			live = append(live, v)
		}
	}
	return eng.joinEnvs(a, b, site, live)
}

// flow evaluates the phis of succ for the edge pred->succ and delivers the state.
func (eng *Engine) flow(pred, succ *ssa.BasicBlock, env *Env, deliver func(*ssa.BasicBlock, *Env)) {
	idx := -1
	for i, p := range succ.Preds {
		if p == pred {
			idx = i
			// a block can be a predecessor twice (both edges of an If); phis agree on such edges in practice
			break
		}
	}
	var phis []*ssa.Phi
	for _, in := range succ.Instrs {
		if phi, ok := in.(*ssa.Phi); ok {
			phis = append(phis, phi)
		} else {
			break
		}
	}
	if len(phis) > 0 && idx >= 0 {
		// an undetermined comparison that flows into a boolean phi (the tail of `a && x == y` in a predicate
		// helper) is decided here, once per outcome, so that what the comparison says about the compared
		// cells travels with the boolean to whoever branches on it (possibly the caller)
		for _, phi := range phis {
			ev := phi.Edges[idx]
			if _, isCmp := ev.(*ssa.BinOp); !isCmp {
				continue
			}
			if c := eng.val(env, ev); c.K == KBool && c.B == triU {
				et := env.clone()
				okT := eng.refine(et, ev, true)
				okF := eng.refine(env, ev, false)
				if okT {
					et.vals[ev] = boolAV(triT)
					recordPure(et, c, true)
					eng.flow(pred, succ, et, deliver)
				}
				if !okF {
					return
				}
				env.vals[ev] = boolAV(triF)
				recordPure(env, c, false)
			}
		}
		vals := make([]AV, len(phis))
		for i, phi := range phis {
			vals[i] = eng.val(env, phi.Edges[idx])
		}
		for i, phi := range phis {
			a := vals[i]
			a.Src = nil
			env.vals[phi] = a
		}
	}
	deliver(succ, env)
}

func (eng *Engine) observe(fn *ssa.Function, in ssa.Instruction, env *Env) {
	if eng.obsActive {
		for _, o := range eng.observers {
			o.Visit(eng, fn, in, env)
		}
		return
	}
	if !eng.final {
		return
	}
	eng.visits[in]++
	for _, o := range eng.observers {
		o.Visit(eng, fn, in, env)
	}
}

// branch evaluates an If in env and returns the successor states with the condition's refinement.
func (eng *Engine) branch(t *ssa.If, env *Env) []edgeEnv {
	eng.observe(t.Parent(), t, env)
	b := t.Block()
	c := eng.val(env, t.Cond)
	var out []edgeEnv
	switch {
	case c.K == KBool && c.B == triT:
		out = append(out, edgeEnv{b.Succs[0], env})
	case c.K == KBool && c.B == triF:
		out = append(out, edgeEnv{b.Succs[1], env})
	default:
		et := env.clone()
		ef := env
		if eng.refine(et, t.Cond, true) {
			et.vals[t.Cond] = boolAV(triT)
			recordPure(et, c, true)
			out = append(out, edgeEnv{b.Succs[0], et})
		}
		if eng.refine(ef, t.Cond, false) {
			ef.vals[t.Cond] = boolAV(triF)
			recordPure(ef, c, false)
			out = append(out, edgeEnv{b.Succs[1], ef})
		}
	}
	return out
}

// refine narrows env under cond == want; returns false when that is contradictory.
func (eng *Engine) refine(env *Env, cond ssa.Value, want bool) bool {
	switch c := cond.(type) {
	case *ssa.UnOp:
		if c.Op == token.NOT {
			return eng.refine(env, c.X, !want)
		}
	case *ssa.BinOp:
		if c.Op != token.EQL && c.Op != token.NEQ {
			return true
		}
		eq := (c.Op == token.EQL) == want
		x, y := eng.val(env, c.X), eng.val(env, c.Y)
		// reference vs nil
		if x.isRef() && y.isRef() {
			nx, ny := env.nilnessOf(x), env.nilnessOf(y)
			var ref AV
			var other nilness
			switch {
			case ny == isNil && y.Sym == 0 && y.Obj == 0:
				ref, other = x, nx
			case nx == isNil && x.Sym == 0 && x.Obj == 0:
				ref, other = y, ny
			default:
				return true
			}
			if eq {
				if other == nonNil {
					return false
				}
				env.setNil(ref, isNil)
			} else {
				if other == isNil {
					return false
				}
				env.setNil(ref, nonNil)
			}
			return true
		}
		// scalar vs constant: narrow the cell it was loaded from and the register
		if x.K == KNum && y.K == KNum {
			narrow := func(v AV, reg ssa.Value, cst AV) bool {
				s, ok := cst.single()
				if !ok {
					return true
				}
				if eq {
					if v.Set != nil && !containsStr(v.Set, s) {
						return false
					}
					nv := AV{K: KNum, Set: []string{s}}
					if v.Src != nil {
						if cur, ok := env.cells[*v.Src]; ok && env.avKey(bare(cur)) == env.avKey(bare(v)) {
							if oi := env.objs[v.Src.Obj]; oi != nil && !oi.Summary && !oi.ElemCell {
								env.cells[*v.Src] = nv
							}
						}
					}
					if _, isConst := reg.(*ssa.Const); !isConst {
						env.vals[reg] = nv
					}
				} else if v.Set != nil {
					var rest []string
					for _, e := range v.Set {
						if e != s {
							rest = append(rest, e)
						}
					}
					if len(rest) == 0 {
						return false
					}
					nv := AV{K: KNum, Set: rest}
					if v.Src != nil {
						if cur, ok := env.cells[*v.Src]; ok && env.avKey(bare(cur)) == env.avKey(bare(v)) {
							if oi := env.objs[v.Src.Obj]; oi != nil && !oi.Summary && !oi.ElemCell {
								env.cells[*v.Src] = nv
							}
						}
					}
					if _, isConst := reg.(*ssa.Const); !isConst {
						env.vals[reg] = nv
					}
				}
				return true
			}
			if !narrow(x, c.X, y) {
				return false
			}
			if !narrow(y, c.Y, x) {
				return false
			}
		}
		if x.K == KBool && y.K == KBool {
			// b == const
			if y.B != triU && x.B == triU {
				return eng.refine(env, c.X, (y.B == triT) == eq)
			}
			if x.B != triU && y.B == triU {
				return eng.refine(env, c.Y, (x.B == triT) == eq)
			}
		}
	case *ssa.Phi, *ssa.Call, *ssa.Extract:
		// opaque boolean: remember the outcome for this register only
	}
	return true
}

func stripSrc(a AV) AV { a.Src = nil; return a }

// bare: the value as it is stored in a cell (no load provenance)
func bare(a AV) AV { a.Src = nil; a.Expr = ""; return a }

// recordPure remembers the outcome of a pure comparison over the current versions of strong cells.
func recordPure(env *Env, c AV, outcome bool) {
	if c.K != KBool || c.Expr == "" {
		return
	}
	e := c.Expr
	for strings.HasPrefix(e, "!") {
		e = e[1:]
		outcome = !outcome
	}
	if outcome {
		env.pure[e] = triT
	} else {
		env.pure[e] = triF
	}
}

func containsStr(xs []string, s string) bool {
	for _, x := range xs {
		if x == s {
			return true
		}
	}
	return false
}

// checkNonNil records a nil-dereference obligation for instruction in.
func (eng *Engine) checkNonNil(in ssa.Instruction, a AV, env *Env, what, kind string) bool {
	n := env.nilnessOf(a)
	if eng.final {
		r := eng.derefs[in]
		if r == nil {
			r = &DerefRec{Instr: in, Fn: in.Parent(), What: what, Kind: kind}
			eng.derefs[in] = r
		}
		r.Visits++
		if n != nonNil {
			r.Bad++
			if r.Witness == "" {
				var st []string
				for _, f := range eng.stack {
					st = append(st, eng.p.shortKey(f))
				}
				r.Witness = fmt.Sprintf("%s is %s here; call chain: %s", what, n, strings.Join(st, " → "))
				if traceFn != "" && strings.Contains(traceFn, in.Parent().Name()) {
					fmt.Printf("BAD deref in %s at %s: %s\n  value=%s\n  ctx=%s\n", in.Parent().Name(), eng.p.pos(in.Pos()), r.Witness, env.avKey(a), eng.ctxKey())
					for _, f := range eng.stack {
						for _, v := range fnValues(f) {
							if av, ok := env.vals[v]; ok {
								fmt.Printf("    %s.%s = %s\n", f.Name(), v.Name(), env.avKey(av))
							}
						}
					}
				}
			}
		}
	}
	return n != isNil
}

func constantString(v constant.Value) string { return v.ExactString() }

// globalNonNil: g is stored exactly once in the whole module, by a package initialiser, with a value
// that is non-nil by construction.
func (eng *Engine) globalNonNil(g *ssa.Global) bool {
	if v, ok := eng.globalNN[g]; ok {
		return v
	}
	res := false
	var st *ssa.Store
	n := 0
	for _, pk := range eng.p.Pkgs {
		sp := eng.p.SSAPkg[pk.PkgPath]
		for _, f := range eng.p.AllModuleFuncsOfSSAPkg(sp) {
			for _, b := range f.Blocks {
				for _, in := range b.Instrs {
					if s, ok := in.(*ssa.Store); ok && s.Addr == ssa.Value(g) {
						n++
						root := f
						for root.Parent() != nil {
							root = root.Parent()
						}
						if root.Name() == "init" {
							st = s
						} else {
							n += 100
						}
					}
				}
			}
		}
	}
	if n == 1 && st != nil {
		switch t := st.Val.(type) {
		case *ssa.Alloc, *ssa.MakeSlice, *ssa.MakeMap, *ssa.MakeClosure, *ssa.Function, *ssa.MakeInterface:
			res = true
		case *ssa.Slice:
			_, res = t.X.(*ssa.Alloc)
		case *ssa.Call:
			if c := t.Call.StaticCallee(); c != nil {
				switch c.String() {
				case "regexp.MustCompile", "errors.New", "fmt.Errorf", "strings.NewReplacer":
					res = true
				}
			}
		}
	}
	eng.globalNN[g] = res
	return res
}
