package main

import (
	"fmt"
	"testing"
)

func TestDbgNilMods(t *testing.T) {
	p, err := Load("/repo", Config{}, "vta")
	if err != nil {
		t.Fatal(err)
	}
	eng := NewEngine(p)
	bp := newBoundsProver(p, eng)
	fn := p.Func(p.ExpPkg, "(*expressionStream).normalizeLicense")
	fmt.Println("fn:", fn)
	m := bp.nilModsOf(fn)
	fmt.Println("nilmods:", m, m == nil)
	fmt.Println("trans:", bp.eff.trans[fn])
	fb := bp.forFn(fn)
	for _, b := range fn.Blocks {
		fmt.Println(b.Index, len(fb.facts[b.Index]))
	}
}
