package main

import (
	"flag"
	"fmt"
	"os"
	"path/filepath"
	"runtime/debug"
	"sort"
	"strconv"
	"time"
)

type checkFn func(p *Prog, r *Report)

type propDef struct {
	Level   string
	Explain string
	Run     checkFn
	Assume  []string
	Trusted []string
}

var props = map[string]*propDef{}

func register(id string, d *propDef) { props[id] = d }

func main() {
	// the abstract interpreter allocates many short-lived environments; collect less often
	debug.SetGCPercent(600)
	if len(os.Args) < 2 {
		usage()
	}
	switch os.Args[1] {
	case "check":
		os.Exit(cmdCheck(os.Args[2:]))
	case "ai":
		os.Exit(cmdAI(os.Args[2:]))
	case "explain":
		os.Exit(cmdExplain(os.Args[2:]))
	case "anchors-ref":
		repo := "/repo"
		if len(os.Args) > 2 {
			repo = os.Args[2]
		}
		if err := anchorsRefCmd(repo); err != nil {
			fmt.Fprintln(os.Stderr, err)
			os.Exit(2)
		}
	case "list":
		var ids []string
		for id := range props {
			ids = append(ids, id)
		}
		sort.Strings(ids)
		for _, id := range ids {
			fmt.Println(id, props[id].Level)
		}
	default:
		usage()
	}
}

func usage() {
	fmt.Fprintln(os.Stderr, "usage: spdxverif check -property Cnn [-tier quick|thorough] [-repo /repo] [-verif /verif]\n       spdxverif explain <replay.json>\n       spdxverif list")
	os.Exit(2)
}

func verifDirDefault() string {
	if d := os.Getenv("VERIF_DIR"); d != "" {
		return d
	}
	exe, err := os.Executable()
	if err == nil {
		d := filepath.Dir(filepath.Dir(exe))
		if _, err := os.Stat(filepath.Join(d, "properties.jsonl")); err == nil {
			return d
		}
	}
	return "/verif"
}

func cmdCheck(args []string) (code int) {
	fs := flag.NewFlagSet("check", flag.ExitOnError)
	prop := fs.String("property", "", "property id (C01..C15)")
	tier := fs.String("tier", os.Getenv("VERIF_TIER"), "quick|thorough")
	repo := fs.String("repo", "/repo", "repository to analyse")
	verif := fs.String("verif", verifDirDefault(), "verif directory (evidence, known findings)")
	goos := fs.String("goos", "", "GOOS for the analysed configuration")
	goarch := fs.String("goarch", "", "GOARCH")
	tests := fs.Bool("tests", false, "load test files too (information only)")
	cg := fs.String("cg", "vta", "call graph: vta|cha|rta")
	noControls := fs.Bool("no-controls", false, "thorough tier without the control corpus")
	fs.Parse(args)
	if *tier == "" {
		*tier = "quick"
	}
	d, ok := props[*prop]
	if !ok {
		fmt.Fprintf(os.Stderr, "unknown property %q\n", *prop)
		return 2
	}
	seed := int64(1)
	if s := os.Getenv("VERIF_SEED"); s != "" {
		if n, err := strconv.ParseInt(s, 10, 64); err == nil {
			seed = n
		}
	}
	start := time.Now()
	r := NewReport(*prop, *tier, seed)
	r.Level = d.Level
	r.Explain = d.Explain
	r.Assume = d.Assume
	r.Trusted = d.Trusted
	var p *Prog
	var loadErr error
	defer func() {
		if x := recover(); x != nil {
			// a panic inside the analyser is never a pass
			fmt.Printf("analyser panic: %v\n%s\n", x, debug.Stack())
			r2 := NewReport(*prop, *tier, seed)
			r2.Level = d.Level
			r2.Explain = d.Explain
			r2.Trusted = d.Trusted
			code = r2.Finish(*verif, nil, time.Since(start).Seconds(), fmt.Errorf("analyser panic: %v", x))
		}
	}()
	p, loadErr = Load(*repo, Config{GOOS: *goos, GOARCH: *goarch, Tests: *tests}, *cg)
	if loadErr == nil {
		for _, rn := range p.Renames {
			r.Note("renamed anchor: %s", rn)
			fmt.Printf("  note: %s\n", rn)
		}
		d.Run(p, r)
		if *tier == "thorough" {
			runThorough(p, r, d, *repo, *verif, *noControls)
		}
	}
	return r.Finish(*verif, p, time.Since(start).Seconds(), loadErr)
}
